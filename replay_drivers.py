"""additional replay drivers (run under /venv/bin/python with PYTHONPATH=<repo>)"""
import numpy as np
import torch as tn
import torchtt
from torchtt import TT
from replay import mk_tt, build, snapshot, unchanged, wf_errors, relerr, descr, clampi, DT


def drv_unary(doc, args, inst):
    msgs = []
    for seed in range(3):
        x = build(inst, args['x'], 10 + seed)
        sx = snapshot(x)
        op = args['op']
        try:
            if op == 'neg':
                r, ref = -x, -x.full()
            elif op == 'pos':
                r, ref = +x, x.full()
            elif op == 't':
                r = x.t()
                d = len(x.N)
                ref = x.full().permute(list(range(d, 2 * d)) + list(range(d)))
            elif op == 'conj':
                r, ref = x.conj(), x.full().conj()
            elif op == 'clone':
                r, ref = x.clone(), x.full()
            elif op == 'to_ttm':
                r = x.to_ttm()
                ref = x.full().reshape(list(x.N) + [1] * len(x.N))
            elif op == 'detach':
                r, ref = x.detach(), x.full()
            elif op == 'diag':
                r = torchtt.diag(x)
                if x.is_ttm:
                    d = len(x.N)
                    f = x.full()
                    ref = tn.einsum(f, list(range(d)) + list(range(d)), list(range(d)))
                else:
                    d = len(x.N)
                    ref = tn.zeros(list(x.N) + list(x.N), dtype=x.cores[0].dtype)
                    f = x.full()
                    import itertools
                    for idx in itertools.product(*[range(n) for n in x.N]):
                        ref[idx + idx] = f[idx]
            else:
                return ['unknown unary op %s' % op]
        except Exception as e:
            msgs.append('real code raises %s: %s for x=%s' % (type(e).__name__, str(e)[:150], descr(x)))
            break
        we = wf_errors(r)
        if we:
            msgs.append('result not well formed: %s' % we)
        rf = r.full()
        if list(rf.shape) != list(ref.shape):
            msgs.append('shape %s vs dense %s for x=%s' % (list(rf.shape), list(ref.shape), descr(x)))
        elif not relerr(rf, ref) < 1e-9:
            msgs.append('value differs from dense: rel.err %.3e for x=%s' % (relerr(rf, ref), descr(x)))
        if not unchanged(x, sx):
            msgs.append('operand modified')
        if op in ('neg', 'pos', 'clone'):
            if any(a.data_ptr() == b.data_ptr() for a, b in zip(r.cores, x.cores)):
                msgs.append('result shares storage with the operand')
        if msgs:
            break
    return msgs


def drv_full(doc, args, inst):
    msgs = []
    for seed in range(3):
        x = build(inst, args['x'], 10 + seed)
        try:
            f = x.full()
        except Exception as e:
            return ['full() raises %s: %s for %s' % (type(e).__name__, str(e)[:150], descr(x))]
        want = (list(x.M) + list(x.N)) if x.is_ttm else list(x.N)
        if list(f.shape) != want:
            msgs.append('full().shape %s, expected %s for %s' % (list(f.shape), want, descr(x)))
            break
        # independent reconstruction
        d = len(x.N)
        if x.is_ttm:
            cur = x.cores[0]
            cur = cur.reshape(cur.shape[1], cur.shape[2], cur.shape[3])
            # build by explicit loops over small sizes
            import itertools
            ref = tn.zeros(want, dtype=f.dtype)
            for mi in itertools.product(*[range(m) for m in x.M]):
                for ni in itertools.product(*[range(n) for n in x.N]):
                    v = tn.ones((1, 1), dtype=f.dtype)
                    for k in range(d):
                        v = v @ x.cores[k][:, mi[k], ni[k], :]
                    ref[mi + ni] = v[0, 0]
        else:
            import itertools
            ref = tn.zeros(want, dtype=f.dtype)
            for ni in itertools.product(*[range(n) for n in x.N]):
                v = tn.ones((1, 1), dtype=f.dtype)
                for k in range(d):
                    v = v @ x.cores[k][:, ni[k], :]
                ref[ni] = v[0, 0]
        if not relerr(f, ref) < 1e-9:
            msgs.append('full() differs from the chain product: rel.err %.3e for %s' % (relerr(f, ref), descr(x)))
            break
    return msgs


def drv_factory(doc, args, inst):
    what = args['what']
    ttm = args.get('ttm')
    N = [clampi(n) for n in inst['N']]
    M = [clampi(m) for m in inst['M']] if inst.get('M') else None
    msgs = []
    shape = [(m, n) for m, n in zip(M, N)] if ttm else N
    try:
        if what in ('ones', 'zeros'):
            r = getattr(torchtt, what)(shape)
            ref = getattr(tn, what)((M + N) if ttm else N, dtype=tn.float64)
            pairs = [(r, ref)]
        elif what == 'eye':
            r = torchtt.eye(N)
            n = int(np.prod(N))
            ref = tn.eye(n, dtype=tn.float64).reshape(N + N)
            pairs = [(r, ref)]
        elif what == 'rank1TT':
            vs = [tn.randn([M[k], N[k]] if ttm else [N[k]], dtype=tn.float64) for k in range(len(N))]
            r = torchtt.rank1TT(vs)
            ref = vs[0]
            for v in vs[1:]:
                ref = tn.tensordot(ref, v, dims=0)
            if ttm:
                d = len(N)
                ref = ref.permute([2 * k for k in range(d)] + [2 * k + 1 for k in range(d)])
            pairs = [(r, ref)]
        else:
            vs = [tn.randn([n], dtype=tn.float64) for n in N]
            rs = torchtt.meshgrid(vs)
            refs = tn.meshgrid(*vs, indexing='ij')
            pairs = list(zip(rs, refs))
    except Exception as e:
        return ['%s raises %s: %s (N=%s M=%s)' % (what, type(e).__name__, str(e)[:150], N, M)]
    for r, ref in pairs:
        we = wf_errors(r)
        if we:
            msgs.append('result not well formed: %s' % we)
        f = r.full()
        if list(f.shape) != list(ref.shape):
            msgs.append('%s: shape %s vs %s' % (what, list(f.shape), list(ref.shape)))
        elif not relerr(f, ref) < 1e-12:
            msgs.append('%s: entries differ (rel.err %.2e) N=%s' % (what, relerr(f, ref), N))
    return msgs


DRIVERS = {'unary': drv_unary, 'full': drv_full, 'factory': drv_factory}


def drv_sum(doc, args, inst):
    msgs = []
    for seed in range(3):
        x = build(inst, args['x'], 10 + seed)
        sx = snapshot(x)
        index = args.get('index')
        d = len(x.N)
        f = x.full()
        try:
            if index is None:
                r = x.sum()
                ref = f.sum()
            else:
                r = x.sum(index[0] if args.get('as_int') else list(index))
                dims = list(index) + ([i + d for i in index] if x.is_ttm else [])
                ref = f.sum(dim=dims) if dims else f          # an empty axis list sums nothing (torch's sum(dim=[]) would sum everything)
        except Exception as e:
            return ['sum raises %s: %s for %s index=%s' % (type(e).__name__, str(e)[:150], descr(x), index)]
        rf = r.full() if isinstance(r, TT) else r
        if isinstance(r, TT):
            we = wf_errors(r)
            if we:
                msgs.append('result not well formed: %s' % we)
        if list(rf.shape) != list(ref.shape):
            msgs.append('sum(%s) shape %s vs dense %s for %s' % (index, list(rf.shape), list(ref.shape), descr(x)))
        elif not relerr(rf, ref) < 1e-9:
            msgs.append('sum(%s) value differs (rel.err %.2e) for %s' % (index, relerr(rf, ref), descr(x)))
        if not unchanged(x, sx):
            msgs.append('operand modified by sum')
        if msgs:
            break
    return msgs


def drv_norm(doc, args, inst):
    msgs = []
    for seed in range(3):
        x = build(inst, args['x'], 10 + seed)
        if args.get('tracked'):
            for c in x.cores:
                c.requires_grad_(True)
        f = x.full().detach()
        try:
            r = x.norm(bool(args.get('squared')))
        except Exception as e:
            return ['norm raises %s: %s for %s' % (type(e).__name__, str(e)[:150], descr(x))]
        ref = tn.linalg.norm(f)
        if args.get('squared'):
            ref = ref ** 2
        if r.dim() != 0:
            msgs.append('norm returned shape %s' % list(r.shape))
        elif not abs(complex(r.detach()) - complex(ref)) <= 1e-9 * max(1.0, abs(complex(ref))):
            msgs.append('norm %s vs dense %s for %s' % (complex(r.detach()), complex(ref), descr(x)))
        if msgs:
            break
    return msgs


def drv_dot(doc, args, inst):
    msgs = []
    for seed in range(3):
        a = build(inst, args['a'], 10 + seed)
        b = build(inst, args['b'], 20 + seed)
        sa, sb = snapshot(a), snapshot(b)
        axis = args.get('axis')
        fa, fb = a.full(), b.full()
        try:
            if axis is None:
                r = torchtt.dot(a, b)
                ref = (fa * fb.conj()).sum()
            else:
                r = torchtt.dot(a, b, list(axis))
                ref = tn.tensordot(fa, fb.conj(), dims=(list(axis), list(range(len(axis)))))
        except Exception as e:
            return ['dot raises %s: %s for a=%s b=%s axis=%s' % (type(e).__name__, str(e)[:150], descr(a), descr(b), axis)]
        rf = r.full() if isinstance(r, TT) else r
        if list(rf.shape) != list(ref.shape):
            msgs.append('dot shape %s vs dense %s (a=%s b=%s axis=%s)' % (list(rf.shape), list(ref.shape), descr(a), descr(b), axis))
        elif not relerr(rf, ref) < 1e-9:
            msgs.append('dot value differs (rel.err %.2e) (a=%s b=%s axis=%s)' % (relerr(rf, ref), descr(a), descr(b), axis))
        if not unchanged(a, sa) or not unchanged(b, sb):
            msgs.append('operand modified by dot')
        if msgs:
            break
    return msgs


def drv_bilinear(doc, args, inst):
    msgs = []
    for seed in range(3):
        x = build(inst, args['x'], 10 + seed)
        A = build(inst, args['A'], 20 + seed)
        y = build(inst, args['y'], 30 + seed)
        d = len(x.N)
        try:
            r = torchtt.bilinear_form(x, A, y)
        except Exception as e:
            return ['bilinear_form raises %s: %s' % (type(e).__name__, str(e)[:150])]
        ref = tn.tensordot(tn.tensordot(x.full().conj(), A.full(), dims=(list(range(d)), list(range(d)))), y.full(), dims=(list(range(d)), list(range(d))))
        if not relerr(r.reshape([]), ref.reshape([])) < 1e-9:
            msgs.append('bilinear_form %s vs dense %s' % (complex(r), complex(ref)))
            break
    return msgs


DRIVERS.update({'sum': drv_sum, 'norm': drv_norm, 'dot': drv_dot, 'bilinear': drv_bilinear})


def drv_cat(doc, args, inst):
    msgs = []
    for seed in range(2):
        ts = [build(inst, k, 10 + seed + 7 * j) for j, k in enumerate(args['tensors'])]
        snaps = [snapshot(t) for t in ts]
        dim = args['dim']
        try:
            ref = tn.cat([t.full() for t in ts], dim)
        except Exception as e:
            ref = None
        try:
            r = torchtt.cat(tuple(ts), dim)
        except Exception as e:
            if ref is None:
                return []
            return ['cat raises %s: %s for %s dim=%d' % (type(e).__name__, str(e)[:150], [descr(t) for t in ts], dim)]
        if ref is None:
            return ['cat returned %s for operands with no dense counterpart: %s dim=%d' % (descr(r), [descr(t) for t in ts], dim)]
        we = wf_errors(r)
        if we:
            msgs.append('result not well formed: %s' % we)
        rf = r.full()
        if list(rf.shape) != list(ref.shape):
            msgs.append('cat shape %s vs dense %s' % (list(rf.shape), list(ref.shape)))
        elif not relerr(rf, ref) < 1e-9:
            msgs.append('cat value differs (rel.err %.2e) for %s dim=%d' % (relerr(rf, ref), [descr(t) for t in ts], dim))
        if not all(unchanged(t, s) for t, s in zip(ts, snaps)):
            msgs.append('operand modified by cat')
        if msgs:
            break
    return msgs


def drv_pad(doc, args, inst):
    msgs = []
    padding = [[max(0, min(3, int(a))), max(0, min(3, int(b)))] for a, b in inst['padding']]
    try:
        value = float(inst.get('value', 0.0))
    except Exception:
        value = 3.0
    if value == 0.0 and 'outside' in doc.get('obligation', ''):
        value = 3.0
    # the model's value first, then values that single precision cannot represent
    for seed, value in enumerate([value, value, 0.3, -1.7]):
        x = build(inst, args['x'], 10 + seed)
        sx = snapshot(x)
        d = len(x.N)
        k = len(padding)
        try:
            r = torchtt.pad(x, tuple(tuple(p) for p in padding), value)
        except Exception as e:
            return ['pad raises %s: %s for %s padding=%s' % (type(e).__name__, str(e)[:150], descr(x), padding)]
        f = x.full()
        if not x.is_ttm:
            flat = []
            for p in reversed(padding):
                flat += p
            ref = tn.nn.functional.pad(f, flat, value=value)
        else:
            Mn = list(x.M)
            Nn = list(x.N)
            for j, p in enumerate(padding):
                kk = d - k + j
                Mn[kk] += p[0] + p[1]
                Nn[kk] += p[0] + p[1]
            ref = tn.zeros(Mn + Nn, dtype=f.dtype)
            sl = []
            for kk in range(d):
                j = kk - (d - k)
                lo = padding[j][0] if j >= 0 else 0
                sl.append(slice(lo, lo + x.M[kk]))
            for kk in range(d):
                j = kk - (d - k)
                lo = padding[j][0] if j >= 0 else 0
                sl.append(slice(lo, lo + x.N[kk]))
            ref[tuple(sl)] = f
            if k == d:
                import itertools
                for which in (0, 1):
                    rngs = []
                    for j, p in enumerate(padding):
                        rngs.append(range(p[0]) if which == 0 else range(p[0] + x.M[j], Mn[j]))
                    rngs_n = []
                    for j, p in enumerate(padding):
                        rngs_n.append(range(p[0]) if which == 0 else range(p[0] + x.N[j], Nn[j]))
                    for mi in itertools.product(*rngs):
                        # identity: same offset in the row and column corner
                        ni = tuple((m if which == 0 else m - (padding[j][0] + x.M[j]) + (padding[j][0] + x.N[j])) for j, m in enumerate(mi))
                        if all(n in rn for n, rn in zip(ni, rngs_n)):
                            ref[mi + ni] = value
        we = wf_errors(r)
        if we:
            msgs.append('result not well formed: %s' % we)
        rf = r.full()
        if list(rf.shape) != list(ref.shape):
            msgs.append('pad shape %s vs dense %s' % (list(rf.shape), list(ref.shape)))
        elif not relerr(rf, ref) < 1e-9 or (rf.dtype in (tn.float64, tn.complex128) and float((rf - ref).abs().max()) > 1e-11 * max(1.0, float(ref.abs().max()))):
            msgs.append('pad(%s, %s, value=%s) differs from dense constant padding: max abs err %.3g' % (descr(x), padding, value, float((rf - ref).abs().max())))
        if not unchanged(x, sx):
            msgs.append('operand modified by pad')
        if msgs:
            break
    return msgs


def drv_mprod(doc, args, inst):
    msgs = []
    for seed in range(2):
        x = build(inst, args['x'], 10 + seed)
        sx = snapshot(x)
        modes = args['modes']
        L = [clampi(l) for l in inst['L']]
        cur = list(x.N)
        Fs = []
        for j, m in enumerate(modes):
            Fs.append(tn.randn([L[j], cur[m]], dtype=tn.float64).to(x.cores[0].dtype))
            cur[m] = L[j]
        try:
            r = x.mprod(Fs[0], modes[0]) if args['form'] == 'int' else x.mprod(Fs, list(modes))
        except Exception as e:
            return ['mprod raises %s: %s' % (type(e).__name__, str(e)[:150])]
        ref = x.full()
        for F, m in zip(Fs, modes):
            ref = tn.movedim(tn.tensordot(F, ref, dims=([1], [m])), 0, m)
        rf = r.full()
        if list(rf.shape) != list(ref.shape):
            msgs.append('mprod shape %s vs dense %s' % (list(rf.shape), list(ref.shape)))
        elif not relerr(rf, ref) < (1e-4 if rf.dtype in (tn.float32, tn.complex64) else 1e-9):
            msgs.append('mprod value differs (rel.err %.2e) x=%s modes=%s L=%s' % (relerr(rf, ref), descr(x), modes, L))
        if not unchanged(x, sx):
            msgs.append('operand modified by mprod')
        if msgs:
            break
    return msgs


DRIVERS.update({'cat': drv_cat, 'pad': drv_pad, 'mprod': drv_mprod})


def _conc_index(desc, N):
    """rebuild a python index from the concretised description, clamped to the actual mode sizes"""
    out = []
    k = 0
    n_cons = sum(1 for e in desc if e is not None and e != 'Ellipsis')
    for e in desc:
        if e is None:
            out.append(None)
        elif e == 'Ellipsis':
            out.append(Ellipsis)
            k += len(N) - n_cons
        elif isinstance(e, dict):
            a, b, s = e['slice']
            n = N[k % len(N)]
            if a is None and b is None:
                out.append(slice(None, None, s))
            else:
                a = max(0, min(int(a), n - 1))
                b = max(a + 1, min(int(b), n))
                out.append(slice(a, b, s))
            k += 1
        else:
            n = N[k % len(N)]
            i = int(e)
            i = max(-n, min(i, n - 1))
            out.append(i)
            k += 1
    return out


def drv_getitem(doc, args, inst):
    msgs = []
    for seed in range(2):
        x = build(inst, args['x'], 10 + seed)
        sx = snapshot(x)
        desc = inst['index']
        if x.is_ttm:
            half = len(desc) // 2
            index = _conc_index(desc[:half], list(x.M)) + _conc_index(desc[half:], list(x.N))
        else:
            index = _conc_index(desc, list(x.N))
        idx = index[0] if inst.get('bare') else tuple(index)
        f = x.full()
        try:
            ref = f[idx]
        except Exception as e:
            return ['dense indexing itself fails: %r' % e]
        try:
            r = x[idx]
        except Exception as e:
            return ['x[%s] raises %s: %s for %s (dense shape %s)' % (idx, type(e).__name__, str(e)[:120], descr(x), list(ref.shape))]
        rf = r.full() if isinstance(r, TT) else r
        if isinstance(r, TT):
            we = wf_errors(r)
            if we:
                msgs.append('result not well formed: %s' % we)
        if list(rf.shape) != list(ref.shape):
            msgs.append('x[%s] has shape %s, dense indexing gives %s (x=%s)' % (idx, list(rf.shape), list(ref.shape), descr(x)))
        elif not relerr(rf, ref) < 1e-9:
            msgs.append('x[%s] values differ from dense (rel.err %.2e) (x=%s)' % (idx, relerr(rf, ref), descr(x)))
        if not unchanged(x, sx):
            msgs.append('operand modified by indexing')
        if msgs:
            break
    return msgs


def drv_apply_mask(doc, args, inst):
    msgs = []
    for seed in range(2):
        x = build(inst, args['x'], 10 + seed)
        M = clampi(inst.get('Mrows', 3), 1, 5)
        g = tn.Generator().manual_seed(seed)
        ind = tn.stack([tn.randint(0, n, (M,), generator=g) for n in x.N], 1)
        try:
            r = x.apply_mask(ind)
        except Exception as e:
            return ['apply_mask raises %s: %s for %s M=%d' % (type(e).__name__, str(e)[:150], descr(x), M)]
        f = x.full()
        ref = tn.stack([f[tuple(int(i) for i in row)] for row in ind])
        if list(r.shape) != list(ref.shape):
            msgs.append('apply_mask shape %s vs %s (M=%d rows)' % (list(r.shape), list(ref.shape), M))
        elif not relerr(r, ref) < 1e-9:
            msgs.append('apply_mask values differ (rel.err %.2e)' % relerr(r, ref))
        if msgs:
            break
    return msgs


DRIVERS.update({'getitem': drv_getitem, 'apply_mask': drv_apply_mask})


def drv_ctor_list(doc, args, inst):
    shapes = [[clampi(s) for s in shp] for shp in inst['shapes']]
    cores = [tn.randn(s, dtype=tn.float64) for s in shapes]
    try:
        t = TT(cores)
    except Exception as e:
        if 'no_raise' in doc.get('obligation', ''):
            return ['TT(cores with shapes %s) raises %s: %s' % (shapes, type(e).__name__, str(e)[:120])]
        return []
    we = wf_errors(t)
    if we:
        return ['TT(cores with shapes %s) is not well formed: %s' % (shapes, we)]
    if 'own_lists' in doc.get('obligation', ''):
        # history: two objects built from one list of cores; one of them is modified in place
        n0 = len(cores)
        a, b = TT(cores), TT(cores)
        c0 = a.cores[0]
        new0 = tn.randn([c0.shape[0], c0.shape[1] + 1] + list(c0.shape[2:]), dtype=tn.float64)
        a.set_core(0, new0)
        msgs = []
        if cores[0] is new0 or len(cores) != n0:
            msgs.append("a = TT(lst); a.set_core(0, c) replaced an entry of the caller's list lst")
        web = wf_errors(b)
        if web or b.cores[0] is new0:
            msgs.append('a = TT(lst); b = TT(lst); a.set_core(0, core with another mode size) changed b: b.N = %s, first core of b has shape %s %s' % (list(b.N), tuple(b.cores[0].shape), web))
        return msgs
    return []


def drv_ctor_none(doc, args, inst):
    t = TT(None)
    msgs = []
    if not hasattr(t, 'shape'):
        msgs.append('TT(None) has no attribute shape')
    elif t.shape != []:
        msgs.append('TT(None).shape = %r' % (t.shape,))
    return msgs


def drv_set_core(doc, args, inst):
    x = build(inst, args['x'], 3)
    shp = [clampi(s) for s in inst['new_shape']]
    k = int(inst['k'])
    # make the ranks fit so that the call is accepted whenever possible
    if 0 <= k < len(x.N) and len(shp) == (4 if x.is_ttm else 3):
        shp[0], shp[-1] = x.R[k], x.R[k + 1]
    try:
        x.set_core(k, tn.randn(shp, dtype=tn.float64))
    except Exception as e:
        return []
    we = wf_errors(x)
    return ['after set_core(%d, core of shape %s): %s' % (k, shp, we)] if we else []


def drv_reduce_dims(doc, args, inst):
    x = build(inst, args['x'], 3)
    f0 = x.full()
    excl = [int(e) for e in inst.get('exclude', [])]
    try:
        x.reduce_dims(excl) if excl else x.reduce_dims()
    except Exception as e:
        return ['reduce_dims raises %s: %s' % (type(e).__name__, str(e)[:120])]
    msgs = []
    we = wf_errors(x)
    if we:
        msgs.append('after reduce_dims(%s): %s' % (excl, we))
    f1 = x.full()
    if f1.numel() != f0.numel() or not relerr(f1.reshape(-1), f0.reshape(-1)) < 1e-10:
        msgs.append('reduce_dims changed the value')
    return msgs


DRIVERS.update({'ctor_list': drv_ctor_list, 'ctor_none': drv_ctor_none, 'set_core': drv_set_core, 'reduce_dims': drv_reduce_dims})


def drv_misuse(doc, args, inst):
    """each case must raise on the real code; returns a message when it returns normally"""
    import torchtt as tt
    case = args['case']
    if case.startswith('cat_size') and 'a' in inst and 'b' in inst:
        return drv_cat(doc, {'tensors': ['a', 'b'], 'dim': 1}, inst)
    r = lambda N, R=None: tt.randn(N, R or ([1] + [2] * (len(N) - 1) + [1]))
    calls = {
        't_on_tensor': lambda: r([2, 3]).t(),
        'sum_out_of_range': lambda: r([2, 3, 4]).sum(7),
        'sum_negative': lambda: r([2, 3, 4]).sum([-5]),
        'sum_list_out_of_range': lambda: r([2, 3, 4]).sum([0, 3]),
        'sum_list_high_first': lambda: r([2, 3, 4]).sum([5, 1]),
        'sum_ttm_out_of_range': lambda: r([(2, 2), (3, 3)]).sum([1, 2]),
        'dot_axis_range': lambda: tt.dot(r([2, 3, 4]), r([2, 3]), [0, 1, 6]),
        'sum_bad_type': lambda: r([2, 3, 4]).sum('a'),
        'mprod_on_ttm': lambda: r([(2, 3), (2, 2)]).mprod(tn.randn(4, 3), 0),
        'mprod_size': lambda: r([2, 3]).mprod(tn.randn(4, 5), 1),
        'mprod_bad_args': lambda: r([2, 3]).mprod([tn.randn(2, 2)], 0),
        'mprod_mode_range': lambda: r([2, 3]).mprod(tn.randn(2, 2), 5),
        'qtt_not_list': lambda: r([2, 2]).qtt_to_tens((4,)),
        'qtt_shape': lambda: r([2, 2]).qtt_to_tens([3]),
        'getitem_too_few': lambda: r([2, 3, 4])[0, :],
        'getitem_too_many': lambda: r([2, 3])[0, 0, 0],
        'getitem_int_range': lambda: r([2, 3])[5, 0],
        'getitem_float': lambda: r([2, 3])[1.5, 0],
        'getitem_bool': lambda: r([2, 3])[True, 0, 0],
        'mul_multi_element': lambda: r([3, 2]) * tn.tensor([1.0, 2.0], dtype=tn.float64),
        'div_multi_element': lambda: r([3, 2]) / tn.tensor([1.0, 2.0], dtype=tn.float64),
        'apply_mask_extra_columns': lambda: r([3, 2]).apply_mask(tn.tensor([[0, 0, 5], [1, 1, 7]])),
        'sum_duplicate_axes': lambda: r([3, 4, 5]).sum([0, 0]),
        'sum_bool_axis': lambda: r([3, 4, 5]).sum(True),
        'dot_axis_size1': lambda: tt.dot(r([3, 4, 5]), r([1]), [1]),
        'reshape_negative': lambda: tt.reshape(r([3, 4]), [-3, -4]),
        'randn_len_R': lambda: tt.randn([2, 3], [1, 2, 1, 5, 7]),
        'randn_end_R': lambda: tt.randn([2, 3], [1, 2, 3]),
        'meshgrid_not_1d': lambda: tt.meshgrid([tn.ones(3, 2), tn.ones(2)]),
        'getitem_str': lambda: r([2, 3])['a'],
        'getitem_two_ellipsis': lambda: r([2, 3, 4])[..., 0, ...],
        'getitem_int_on_order2': lambda: r([2, 3])[0],
        'getitem_slice_on_order2': lambda: r([2, 3])[0:1],
        'getitem_ttm_ellipsis': lambda: r([(2, 3), (2, 2)])[..., 0],
        'getitem_ttm_mixed': lambda: r([(2, 3)])[0, :],
        'set_core_index': lambda: r([2, 3]).set_core(2, tn.randn(1, 2, 1)),
        'set_core_rank': lambda: r([2, 3]).set_core(0, tn.randn(1, 2, 5)),
        'fast_matvec_not_tt': lambda: r([(2, 2), (3, 3)]).fast_matvec(3),
        'fast_matvec_kinds': lambda: r([(2, 2), (3, 3)]).fast_matvec(r([(2, 2), (3, 3)])),
        'to_qtt_not_power': lambda: r([(6, 6), (4, 4)]).to_qtt(),
        'to_qtt_ttm_rect': lambda: r([(2, 4)]).to_qtt(),
        'to_qtt_tensor_not_power': lambda: r([3, 2]).to_qtt(),
        'ctor_bad_source': lambda: TT(3.5),
        'kron_kinds': lambda: tt.kron(r([2, 3]), r([(2, 2)])),
        'kron_bad': lambda: tt.kron(r([2, 3]), 3),
        'dot_not_tt': lambda: tt.dot(r([2, 3]), 3.0),
        'dot_ttm': lambda: tt.dot(r([(2, 2), (3, 3)]), r([(2, 2), (3, 3)])),
        'dot_size': lambda: tt.dot(r([2, 3]), r([2, 4])),
        'dot_order': lambda: tt.dot(r([2, 3]), r([2, 3, 4])),
        'dot_axis_order': lambda: tt.dot(r([2, 3]), r([2, 3, 4]), [0]),
        'dot_axis_size': lambda: tt.dot(r([2, 3, 4]), r([5]), [1]),
        'bilinear_types': lambda: tt.bilinear_form(3, r([(2, 2), (3, 3)]), r([2, 3])),
        'bilinear_kinds': lambda: tt.bilinear_form(r([2, 3]), r([2, 3]), r([2, 3])),
        'bilinear_shape': lambda: tt.bilinear_form(r([2, 4]), r([(2, 2), (3, 3)]), r([2, 3])),
        'cat_ttm': lambda: tt.cat((r([(2, 2), (3, 3)]), r([(2, 2), (3, 3)])), 0),
        'cat_size_before': lambda: tt.cat((r([2, 3, 4]), r([5, 3, 4])), 1),
        'cat_size_after': lambda: tt.cat((r([2, 3, 4]), r([2, 3, 5])), 1),
        'cat_size_both': lambda: tt.cat((r([2, 3, 4]), r([3, 3, 5])), 1),
        'cat_order': lambda: tt.cat((r([2, 3]), r([2, 3, 4])), 1),
        'pad_too_many': lambda: tt.pad(r([3]), ((1, 1), (1, 1))),
        'diag_not_tt': lambda: tt.diag(tn.randn(3, 3)),
        'permute_not_tt': lambda: tt.permute(tn.randn(3, 3), [1, 0]),
        'permute_len': lambda: tt.permute(r([2, 3, 4]), [1, 0]),
        'permute_dup': lambda: tt.permute(r([2, 3, 4]), [1, 1, 0]),
        'permute_range': lambda: tt.permute(r([2, 3, 4]), [1, 2, 3]),
        'reshape_count': lambda: tt.reshape(r([2, 3]), [5]),
        'reshape_ttm_rows': lambda: tt.reshape(r([(2, 2), (2, 8)]), [(5, 16)]),
        'reshape_ttm_cols': lambda: tt.reshape(r([(2, 2), (2, 8)]), [(4, 15)]),
        'reshape_ttm_second': lambda: tt.reshape(r([(2, 2), (2, 8)], [1, 1, 1]), [(2, 2), (4, 4)]),
        'reshape_ttm_swap': lambda: tt.reshape(r([(2, 2), (2, 8)], [1, 1, 1]), [(2, 2), (4, 4)]),
        'save_not_tt': lambda: tt.save(tn.randn(3), '/var/tmp/_ttvc_should_not_exist.TT'),
        'random_bad_R': lambda: tt.random([2, 3], [2, 2, 1]),
        'random_len_R': lambda: tt.random([2, 3], [1, 2, 2, 1]),
        'zeros_not_list': lambda: tt.zeros((2, 3)),
        'ones_not_list': lambda: tt.ones((2, 3)),
        'amen_mv_types': lambda: tt.amen_mv(r([(2, 2), (3, 3)]), 3),
        'amen_mv_kinds': lambda: tt.amen_mv(r([(2, 2), (3, 3)]), r([(2, 2), (3, 3)])),
        'amen_mv_shape': lambda: tt.amen_mv(r([(2, 2), (3, 3)]), r([2, 4])),
        'amen_solve_types': lambda: tt.solvers.amen_solve(r([(2, 2), (3, 3)]), 3),
        'amen_solve_kinds': lambda: tt.solvers.amen_solve(r([2, 3]), r([2, 3])),
        'amen_solve_square': lambda: tt.solvers.amen_solve(r([(2, 3), (3, 3)]), r([3, 3])),
        'amen_solve_shape': lambda: tt.solvers.amen_solve(r([(2, 2), (3, 3)]), r([2, 4])),
        'riemann_kinds': lambda: tt.manifold.riemannian_projection(r([2, 3]), r([(2, 2), (3, 3)])),
        'fast_matvec_shape': lambda: r([(2, 2), (3, 3)]).fast_matvec(r([2, 1])),
        'fast_matvec_order': lambda: r([(2, 2), (3, 3)]).fast_matvec(r([2, 3, 2])),
        'mprod_list_len': lambda: r([2, 3]).mprod([tn.randn(4, 2, dtype=tn.float64)], [0, 1]),
        'getitem_ttm_odd': lambda: r([(2, 2), (3, 3)])[0, 0, 0, 0, 0],
        'amen_mm_types': lambda: tt.amen_mm(r([(2, 2), (3, 3)]), 3),
        'amen_mm_kinds': lambda: tt.amen_mm(r([(2, 2), (3, 3)]), r([2, 3])),
        'amen_mm_shape': lambda: tt.amen_mm(r([(2, 2), (3, 3)]), r([(2, 2), (1, 3)])),
        'amen_mm_order': lambda: tt.amen_mm(r([(2, 2), (3, 3)]), r([(2, 2)])),
        'cat_dim_range': lambda: tt.cat((r([2, 3]), r([2, 3])), 2),
        'cat_single_dim_range': lambda: tt.cat((r([2, 3, 4]),), 3),
        'cat_single_ttm': lambda: tt.cat((r([(2, 2), (3, 3)]),), 0),
        'cat_single_dim_type': lambda: tt.cat([r([2, 3, 4])], 1.5),
        'cat_dim_negative': lambda: tt.cat((r([2, 3]), r([2, 3])), -3),
        'hadamard_types': lambda: tt.dmrg_hadamard(r([2, 3]), 3),
        'hadamard_kinds': lambda: tt.dmrg_hadamard(r([2, 3]), r([(2, 2), (3, 3)])),
        'hadamard_order': lambda: tt.dmrg_hadamard(r([2, 3]), r([2, 3, 2])),
        'ctor_shape_count': lambda: tt.TT(tn.randn(2, 3, 4, 2, dtype=tn.float64), shape=[2, 3, 4]),
        'ctor_shape_count_numpy': lambda: tt.TT(tn.randn(2, 3, 4, 2, dtype=tn.float64).numpy(), shape=[2, 3, 4]),
        'ctor_shape_count_ttm': lambda: tt.TT(tn.randn(2, 3, 2, 3, 2, dtype=tn.float64), shape=[(2, 2), (3, 3)]),
        'getitem_ttm_single_int': lambda: r([(3, 4)])[0],
        'getitem_ttm_single_slice': lambda: r([(3, 4)])[0:2],
        'getitem_bare_bool': lambda: r([5])[True],
        'round_rmax_list_short': lambda: (r([2, 3, 4]) + r([2, 3, 4])).round(1e-10, [1, 2, 1]),
        'round_rmax_list_long': lambda: (r([2, 3, 4]) + r([2, 3, 4])).round(1e-10, [1, 2, 2, 1, 7, 7]),
        'round_rmax_zero': lambda: r([2, 3, 4]).round(1e-10, rmax=0),
        'round_rmax_negative': lambda: r([2, 3, 4]).round(1e-10, rmax=0),
        'round_rmax_list_zero': lambda: r([2, 3]).round(1e-10, rmax=[1, 0, 1]),
        'riemann_order': lambda: tt.manifold.riemannian_projection(r([2, 3]), r([2, 3, 2], [1, 2, 1, 1])),
        'riemann_order_ttm': lambda: tt.manifold.riemannian_projection(r([(2, 2), (3, 3)]), r([(2, 2), (3, 3), (2, 2)], [1, 2, 1, 1])),
        'riemann_size': lambda: tt.manifold.riemannian_projection(r([2, 3]), r([2, 4])),
        'random_rank_zero': lambda: tt.random([2, 3], 0),
        'random_list_rank_zero': lambda: tt.random([2, 3, 2], [1, 2, 0, 1]),
        'randn_rank_zero': lambda: tt.randn([2, 3, 2], [1, 0, 2, 1]),
    }
    if case not in calls:
        return []
    try:
        res = calls[case]()
    except Exception as e:
        ob = doc.get('obligation', '')
        if 'documented_type' in ob and type(e).__name__ not in ('ShapeMismatch', 'RankMismatch', 'IncompatibleTypes', 'InvalidArguments', 'NotImplementedError'):
            return ['%s raises %s (%s), not one of the documented library exceptions' % (case, type(e).__name__, str(e)[:100])]
        return []
    return ['%s: no exception, returned %s' % (case, descr(res) if res is not None else None)]


DRIVERS.update({'misuse': drv_misuse})


def drv_save_load(doc, args, inst):
    import os, tempfile
    msgs = []
    x = build(inst, args['x'], 5)
    p = os.path.join(tempfile.mkdtemp(prefix='ttvc_'), 'x.TT')
    try:
        torchtt.save(x, p)
        y = torchtt.load(p)
    except Exception as e:
        return ['save/load raises %s: %s' % (type(e).__name__, str(e)[:150])]
    finally:
        try:
            os.remove(p); os.rmdir(os.path.dirname(p))
        except OSError:
            pass
    if y.is_ttm != x.is_ttm or list(y.N) != list(x.N) or list(y.R) != list(x.R):
        msgs.append('loaded object differs: %s vs %s' % (descr(y), descr(x)))
    elif any(a.dtype != b.dtype or a.shape != b.shape or not tn.equal(a, b) for a, b in zip(y.cores, x.cores)):
        msgs.append('loaded cores are not bit-identical')
    return msgs


def drv_copies(doc, args, inst):
    msgs = []
    x = build(inst, args['x'], 5)
    op = args['op']
    if op == 'clone_tracked':
        for c in x.cores:
            c.requires_grad_(True)
        r = x.clone()
        if any(a.data_ptr() == b.data_ptr() for a, b in zip(r.cores, x.cores)):
            msgs.append('clone of a watched tensor shares storage with the original')
        return msgs
    if op == 'detach_tracked':
        for c in x.cores:
            c.requires_grad_(True)
        r = x.detach()
        if any(c.requires_grad for c in r.cores):
            msgs.append('detach() result still requires grad')
        if not all(c.requires_grad for c in x.cores):
            msgs.append('detach() changed the operand')
        return msgs
    if op == 'is_cuda':
        try:
            return [] if x.is_cuda() is False else ['is_cuda() returned something else than False on a CPU object']
        except Exception as e:
            return ['is_cuda() raises %s: %s' % (type(e).__name__, str(e)[:120])]
    if op == 'numpy_of_conj':
        try:
            r = x.conj().numpy()
        except Exception as e:
            return ['x.conj().numpy() raises %s: %s for %s' % (type(e).__name__, str(e)[:120], descr(x))]
        return [] if np.allclose(r, np.conj(x.full().numpy())) else ['x.conj().numpy() differs from the conjugated dense array']
    f = x.full()
    try:
        r = {'clone': lambda: x.clone(), 'detach': lambda: x.detach(), 'cpu': lambda: x.cpu(), 'to_dtype': lambda: x.to(dtype=tn.float32),
             'to_none': lambda: x.to(), 'numpy': lambda: x.numpy(), 'to_device': lambda: x.to(device=tn.device('cpu')),
             'to_complex': lambda: x.to(dtype=tn.complex64),
             'to_both': lambda: x.to(device=tn.device('cpu'), dtype=tn.float32), 'to_positional': lambda: x.to(tn.device('cpu'), tn.float32)}[op]()
    except Exception as e:
        return ['%s raises %s: %s' % (op, type(e).__name__, str(e)[:150])]
    if op == 'numpy':
        if not isinstance(r, np.ndarray) or list(r.shape) != list(f.shape) or not np.allclose(r, f.numpy()):
            msgs.append('numpy() differs from full()')
        return msgs
    we = wf_errors(r)
    if we:
        msgs.append('not well formed: %s' % we)
    if op == 'to_complex' and any(c.dtype != tn.complex64 for c in r.cores):
        msgs.append('to(dtype=complex64) of a complex128 object did not convert (core dtypes %s)' % sorted(set(str(c.dtype) for c in r.cores)))
    if not relerr(r.full(), f) < (1e-5 if op in ('to_dtype', 'to_both', 'to_positional', 'to_complex') else 1e-12):
        msgs.append('%s changed the value' % op)
    if op in ('to_dtype', 'to_both', 'to_positional') and any(c.dtype != tn.float32 for c in r.cores):
        msgs.append('%s: to(..., dtype=float32) did not convert (core dtypes %s)' % (op, sorted(set(str(c.dtype) for c in r.cores))))
    if op == 'clone' and any(a.data_ptr() == b.data_ptr() for a, b in zip(r.cores, x.cores)):
        msgs.append('clone shares storage with the original')
    return msgs


DRIVERS.update({'save_load': drv_save_load, 'copies': drv_copies})


def drv_nn_layer(doc, args, inst):
    import torchtt.nn as ttnn
    msgs = []
    n_in = [clampi(s, 1, 4) for s in inst['size_in']]
    n_out = [clampi(s, 1, 4) for s in inst['size_out']]
    R = [clampi(r, 1, 3) for r in inst['rank']]
    R[0] = R[-1] = 1
    nb = int(inst.get('nb', 0))
    try:
        layer = ttnn.LinearLayerTT(n_in, n_out, R, dtype=tn.float64, initializer=args.get('init', 'He'))
    except Exception as e:
        if args.get('expect_raise'):
            if type(e).__name__ != 'InvalidArguments' and 'documented' in doc.get('obligation', ''):
                return ['raises %s instead of InvalidArguments' % type(e).__name__]
            return []
        return ['LinearLayerTT(%s,%s,%s) raises %s: %s' % (n_in, n_out, R, type(e).__name__, str(e)[:150])]
    if args.get('expect_raise'):
        return ['unknown initializer accepted']
    names = [n for n, _ in layer.named_parameters()]
    if len(names) != len(n_in) + 1:
        msgs.append('registered parameters: %s' % names)
    with tn.no_grad():
        layer.bias.copy_(tn.randn(n_out, dtype=tn.float64))
    x = tn.randn([2] * nb + n_in, dtype=tn.float64)
    y = layer(x)
    W = torchtt.TT([c for c in layer.cores]).full()
    d = len(n_in)
    ref = tn.tensordot(x, W, dims=(list(range(nb, nb + d)), list(range(d, 2 * d)))) + layer.bias
    if list(y.shape) != list(ref.shape):
        msgs.append('forward shape %s vs %s' % (list(y.shape), list(ref.shape)))
    elif not relerr(y, ref) < 1e-10:
        msgs.append('forward differs from W x + b (rel.err %.2e) in=%s out=%s R=%s batch dims=%d' % (relerr(y, ref), n_in, n_out, R, nb))
    y.sum().backward()
    if any(p.grad is None for p in layer.parameters()):
        msgs.append('a parameter received no gradient')
    return msgs


DRIVERS.update({'nn_layer': drv_nn_layer})


def drv_rank_chop(doc, args, inst):
    from torchtt._decomposition import rank_chop
    n = max(1, min(8, int(inst.get('n', 3))))
    try:
        eps = float(inst.get('eps', 1.0))
    except Exception:
        eps = 1.0
    s = []
    for v in (inst.get('s') or [])[:n]:
        try:
            s.append(abs(float(v)))
        except Exception:
            s.append(1.0)
    while len(s) < n:
        s.append(s[-1] if s else 1.0)
    msgs = []
    cands = [(np.array(s, dtype=np.float64), eps)]
    # the tie family around the model: equal singular values with the threshold exactly on a partial tail
    for sc in (1e-9, 1e-12, 1e-17, 1e-30, 1e-150):
        cands.append((np.array([3.0, 2.0, 1.0]) * sc, 1e-3 * sc))
        cands.append((np.array([1.0, 1.0]) * sc, 0.5 * sc))
        cands.append((np.array([3.0, 2.0, 1.0]) * sc, 0.0))
    for m in (2, 3, 4):
        cands.append((np.ones(m), 1.0))
        cands.append((np.array([2.0] + [1.0] * (m - 1)), 1.0))
    for sv, e in cands:
        R = int(rank_chop(sv.copy(), e))
        tail = float((sv[R:] ** 2).sum())
        if not (1 <= R <= len(sv)):
            msgs.append('rank_chop(%s, %s) = %d outside [1, n]' % (sv.tolist(), e, R))
        elif e > 0 and tail > e * e * (1 + 1e-12):
            msgs.append('rank_chop(%s, %s) = %d discards energy %g > eps^2 = %g' % (sv.tolist(), e, R, tail, e * e))
        elif e <= 0 and tail > 0:
            msgs.append('rank_chop(%s, %s) = %d truncates non-zero values although eps <= 0' % (sv.tolist(), e, R))
        if msgs:
            break
    return msgs


DRIVERS.update({'rank_chop': drv_rank_chop})


def _tt_svd_one(doc, args, inst):
    """TT-SVD replay: tensors with engineered unfolding spectra (every bond truncates at the edge of its allowance) and ties"""
    msgs = []
    N = [clampi(n, 1, 5) for n in inst['N']]
    M = [clampi(m, 1, 4) for m in inst['M']] if inst.get('M') else None
    try:
        eps = float(inst.get('eps', 0.1))
    except Exception:
        eps = 0.1
    eps = min(max(eps, 1e-6), 0.9)
    rmax = inst.get('rmax', 10 ** 6)
    if isinstance(rmax, list):
        rmax = [1] + [clampi(r, 1, 50) for r in rmax[1:-1]] + [1]
    else:
        try:
            rmax = int(rmax)
        except Exception:
            rmax = 10 ** 6
        rmax = max(1, min(rmax, 10 ** 6))
    if 'ledger' in doc.get('obligation', '') and not isinstance(rmax, list):
        rmax = 10 ** 6          # the ledger obligation is about the non-binding case
    if not M and max(N) <= 3:
        N = [4 if n > 1 else 1 for n in N]     # same singleton pattern, room for an engineered spectrum
    g = tn.Generator().manual_seed(0)
    cases = []
    full_shape = (M + N) if M else N
    for seed in range(3):
        cases.append(tn.randn(full_shape, dtype=tn.float64, generator=g))
    # ties: identity-like inputs
    if not M and len(N) >= 2:
        n = min(N[0], int(np.prod(N[1:])))
        E = tn.zeros(N[0], int(np.prod(N[1:])), dtype=tn.float64)
        for i in range(n):
            E[i, i] = 1.0
        cases.append(E.reshape(N))
    # engineered spectra: one dominant and several small singular values across the first bond whose two sides are both
    # larger than 1; when singleton modes follow, several consecutive bonds see the same unfolding and may each discard
    # part of the small values -- the sum must still stay below eps^2
    if not M:
        for p_ in range(1, len(N)):
            nl, nr = int(np.prod(N[:p_])), int(np.prod(N[p_:]))
            r_ = min(nl, nr)
            if r_ >= 2:
                for e0 in (eps, 0.1, 0.3):
                    U_, _ = tn.linalg.qr(tn.randn(nl, r_, dtype=tn.float64, generator=g))
                    V_, _ = tn.linalg.qr(tn.randn(nr, r_, dtype=tn.float64, generator=g))
                    sv = tn.tensor([1.0] + [np.sqrt(0.45) * e0] * (r_ - 1), dtype=tn.float64)
                    cases.append(((U_ * sv) @ V_.t()).reshape(N))
                break
    want_dt = DT.get(inst.get('dtype') or 'float64', tn.float64)
    if want_dt != tn.float64:
        gz = tn.Generator().manual_seed(1)
        cases = [(c.to(want_dt) + (1j * tn.randn(c.shape, dtype=tn.float64, generator=gz)).to(want_dt)) if want_dt.is_complex else c.to(want_dt) for c in cases]
    for A in cases:
        for e in (eps, 0.1, 0.3, 0.5, 1.0 / np.sqrt(max(len(N) - 1, 1)) * 0.9999):
            try:
                src = A.numpy() if inst.get('src') == 'numpy' else A
                if M:
                    x = TT(src, [(m, n) for m, n in zip(M, N)], eps=e, rmax=rmax)
                elif inst.get('shape_arg'):
                    x = TT(src.reshape(-1), list(N), eps=e, rmax=rmax)
                else:
                    x = TT(src, eps=e, rmax=rmax)
            except Exception as ex_:
                return ['TT(dense %s, eps=%g, rmax=%s) raises %s: %s' % (full_shape, e, rmax, type(ex_).__name__, str(ex_)[:120])]
            we = wf_errors(x)
            if we:
                msgs.append('not well formed: %s' % we)
            if any(c.dtype != A.dtype for c in x.cores):
                msgs.append('TT(%s source of dtype %s) has cores of dtype %s' % (inst.get('src', 'torch'), A.dtype, sorted(set(str(c.dtype) for c in x.cores))))
            if list(x.N) != N or (M and list(x.M) != M):
                msgs.append('shape %s / %s requested %s / %s' % (x.N, x.M if x.is_ttm else None, N, M))
            R = list(x.R)
            rm = rmax if isinstance(rmax, list) else [1] + [rmax] * (len(N) - 1) + [1]
            if any(R[k] > rm[k] for k in range(len(R))):
                msgs.append('ranks %s exceed rmax %s' % (R, rm))
            binding = any(R[k] >= rm[k] for k in range(1, len(N)))
            err = float(tn.linalg.norm(x.full().to(A.dtype) - A) / max(float(tn.linalg.norm(A)), 1e-300)) if x.full().shape == A.shape else float('inf')
            if not binding and err > e * (1 + 1e-9) + (1e-13 if A.dtype in (tn.float64, tn.complex128) else 1e-5):
                msgs.append('TT(dense %s, eps=%g) has relative error %.4g > eps (ranks %s)' % (full_shape, e, err, R))
            if msgs:
                return msgs
    return msgs




def _shared_list_history(inst):
    """history half of the data-structure invariant: the caller's shape / rmax lists are neither kept nor written by the object.
    Two objects are built from the same lists; one of them is then modified in place (set_core with another mode size)."""
    N = [clampi(n, 1, 4) for n in inst['N']]
    g = tn.Generator().manual_seed(3)
    A = tn.randn(N, dtype=tn.float64, generator=g)
    shape = list(N)
    rmax = inst.get('rmax')
    rm = [1] + [clampi(r, 1, 50) for r in rmax[1:-1]] + [1] if isinstance(rmax, list) else None
    shape0, rm0 = list(shape), list(rm) if rm else None
    kw = {'rmax': rm} if rm else {}
    x = TT(A.reshape(-1), shape, eps=1e-12, **kw)
    y = TT(A.reshape(-1), shape, eps=1e-12, **kw)
    if shape != shape0 or (rm and rm != rm0):
        return ['TT(dense, shape=lst, rmax=lst2) modified a caller list: %s %s' % (shape, rm)]
    k = len(N) - 1
    c = x.cores[k]
    x.set_core(k, tn.randn(c.shape[0], c.shape[1] + 1, c.shape[2], dtype=tn.float64, generator=g))
    msgs = []
    if shape != shape0:
        msgs.append("x = TT(dense, shape=lst); x.set_core(%d, core with mode size %d) changed the caller's list lst to %s" % (k, c.shape[1] + 1, shape))
    we = wf_errors(y)
    if we or list(y.N) != N:
        msgs.append('x = TT(A, shape=lst); y = TT(A, shape=lst); x.set_core(...) made the unrelated object y ill-formed: y.N = %s, cores have mode sizes %s' % (list(y.N), [int(c_.shape[1]) for c_ in y.cores]))
    return msgs


def drv_tt_svd(doc, args, inst):
    """replays the model's structure, then (engineered family around the model) every placement of its singleton modes"""
    import itertools
    if 'own_lists' in doc.get('obligation', '') and inst.get('shape_arg') and not inst.get('M'):
        try:
            return _shared_list_history(inst)
        except Exception as e:
            return ['history replay raises %s: %s' % (type(e).__name__, str(e)[:200])]
    msgs = _tt_svd_one(doc, args, inst)
    if not msgs and 'rmax' in doc.get('obligation', '') and not isinstance(inst.get('rmax'), list):
        # rank-bound obligations: the smallest binding bounds, whatever the model chose
        for rm in (1, 2):
            msgs = _tt_svd_one(doc, args, dict(inst, rmax=rm))
            if msgs:
                return ['(rmax=%d) ' % rm + m for m in msgs]
    if msgs or inst.get('M'):
        return msgs
    try:
        N = [int(n) for n in inst['N']]
    except Exception:
        return msgs
    d = len(N)
    k1 = sum(1 for n in N if n == 1)
    tried = 0
    for k in sorted(set([k1, 1, 2])):
        if k <= 0 or k > d - 2:
            continue
        for pos in itertools.combinations(range(1, d - 1), k):
            N2 = [1 if i in pos else 4 for i in range(d)]
            if N2 == [4 if n > 1 else 1 for n in N]:
                continue
            tried += 1
            if tried > 8:
                return msgs
            msgs = _tt_svd_one(doc, args, dict(inst, N=N2))
            if msgs:
                return ['(singleton modes moved to %s) ' % (list(pos),) + m for m in msgs]
    return msgs


DRIVERS.update({'tt_svd': drv_tt_svd})


def drv_round(doc, args, inst):
    """rounding replay: over-parameterised, badly scaled, non-orthogonal cores; zero tensor; ties"""
    msgs = []
    try:
        eps = float(inst.get('eps', 1e-3))
    except Exception:
        eps = 1e-3
    eps = min(max(eps, 0.0), 0.9)
    rmax = inst.get('rmax', 10 ** 6)
    for seed in range(3):
        x = build(inst, args['x'], 10 + seed)
        d = len(x.N)
        # scale the cores wildly and make them rank deficient
        with tn.no_grad():
            for k, c in enumerate(x.cores):
                c.mul_(10.0 ** ((-1) ** k * (k + 1)))
        if isinstance(rmax, list):
            rm = [1] + [clampi(r, 1, 50) for r in rmax[1:-1]] + [1]
            rarg = rm
        else:
            try:
                rarg = max(1, min(int(rmax), 10 ** 6))
            except Exception:
                rarg = 10 ** 6
            rm = [1] + [rarg] * (d - 1) + [1]
        sx = snapshot(x)
        for e in (eps, 0.0, 0.3):
            try:
                y = x.round(e, rarg)
            except Exception as ex_:
                return ['round(%g, %s) raises %s: %s for %s' % (e, rarg, type(ex_).__name__, str(ex_)[:120], descr(x))]
            we = wf_errors(y)
            if we:
                msgs.append('result not well formed: %s' % we)
            if list(y.N) != list(x.N):
                msgs.append('shape changed: %s -> %s' % (x.N, y.N))
            if any(a > b for a, b in zip(y.R, x.R)):
                msgs.append('rank raised: %s -> %s' % (x.R, y.R))
            if any(a > b for a, b in zip(y.R, rm)):
                msgs.append('rank %s above rmax %s' % (y.R, rm))
            binding = any(y.R[k] >= rm[k] for k in range(1, d))
            nx = float(tn.linalg.norm(sx['full']))
            err = float(tn.linalg.norm(y.full() - sx['full'])) / max(nx, 1e-300)
            if not binding and err > e * (1 + 1e-9) + 1e-11:
                msgs.append('round(eps=%g) of %s: relative error %.4g > eps (ranks %s -> %s)' % (e, descr(x), err, x.R, y.R))
            if not unchanged(x, sx):
                msgs.append('operand changed by round(): R %s -> %s' % (sx['R'], x.R))
            if msgs:
                return msgs
    return msgs


DRIVERS.update({'round': drv_round})


def drv_dmrg_frame(doc, args, inst):
    msgs = []
    A = build(inst, args['A'], 3)
    x = build(inst, args['x'], 4)
    g = build(inst, args['g'], 5) if args.get('g') else None
    sa, sx, sg = snapshot(A), snapshot(x), snapshot(g) if g is not None else None
    try:
        if args['which'] == 'fast_matvec':
            y = A.fast_matvec(x, initial=g, nswp=int(args.get('nswp', 2)))
        else:
            y = torchtt.dmrg_hadamard(A, x, z0=g, nswp=int(args.get('nswp', 2)))
    except Exception as e:
        return ['%s raises %s: %s for %s, %s' % (args['which'], type(e).__name__, str(e)[:120], descr(A), descr(x))]
    for name, o, s in (('first operand', A, sa), ('second operand', x, sx), ('initial guess', g, sg)):
        if o is not None and not unchanged(o, s):
            msgs.append('%s was modified (%s)' % (name, descr(o)))
    we = wf_errors(y)
    if we:
        msgs.append('result not well formed: %s' % we)
    if args.get('check_value') and not msgs:
        if args['which'] == 'fast_matvec':
            d_ = len(A.N)
            ref = tn.tensordot(A.full(), x.full(), dims=(list(range(d_, 2 * d_)), list(range(d_))))
        else:
            ref = A.full() * x.full()
        e = relerr(y.full(), ref)
        if not e < 1e-8:
            msgs.append('%s (order %d, %s, nswp=%s) differs from the exact product: rel.err %.3g' % (args['which'], len(x.N), x.cores[0].dtype, args.get('nswp'), e))
    return msgs


DRIVERS.update({'dmrg_frame': drv_dmrg_frame})


def drv_grad_op(doc, args, inst):
    """autograd of TT expression vs dense autograd on the same leaves"""
    import torchtt as tt
    op, who = args['op'], args.get('who', 'both')
    msgs = []
    tn.manual_seed(0)
    d = 2
    N = [3, 4][:d]
    mk = lambda: tt.random(N, [1, 2, 1], dtype=tn.float64)
    x, y = mk(), mk()
    A = tt.random([(2, 3), (3, 4)], [1, 2, 1], dtype=tn.float64)
    sel = {'first': [x], 'second': [y], 'both': [x, y]}[who]
    for o in sel:
        for c in o.cores:
            c.requires_grad_(True)

    def dense(t):
        f = t.cores[0][0]
        for c in t.cores[1:]:
            f = tn.tensordot(f, c, dims=([-1], [0]))
        return f[..., 0]
    fx, fy = dense(x), dense(y)
    try:
        if op == 'tensor_scalar_mul':
            F = (x * tt.dot(x, y)).sum()
            Fd = (fx * (fx * fy).sum()).sum()
        elif op == 'tensor_scalar_add':
            F = (x + tt.dot(x, y)).sum()
            Fd = (fx + (fx * fy).sum()).sum()
        elif op == 'tensor_scalar_div':
            F = (x / tt.dot(x, y)).sum()
            Fd = (fx / (fx * fy).sum()).sum()
        elif op == 'tensor_scalar_sub':
            F = (x - tt.dot(x, y)).sum()
            Fd = (fx - (fx * fy).sum()).sum()
        elif op == 'tensor_scalar_rsub':
            F = (tt.dot(x, y) - x).sum()
            Fd = ((fx * fy).sum() - fx).sum()
        elif op == 'scalar_div':
            F = ((x / 2.5) * x).sum()
            Fd = ((fx / 2.5) * fx).sum()
        elif op == 'mul':
            F = (x * y).sum(); Fd = (fx * fy).sum()
        elif op == 'norm':
            F = x.norm(); Fd = tn.linalg.norm(fx)
        elif op == 'norm_sq':
            F = x.norm(True); Fd = (fx * fx).sum()
        elif op == 'sum_all':
            F = x.sum() * x.sum(); Fd = fx.sum() * fx.sum()
        else:
            F = (x * x + y).sum(); Fd = (fx * fx + fy).sum()
    except Exception as e:
        return ['expression raises %s: %s' % (type(e).__name__, str(e)[:160])]
    leaves = [c for o in sel for c in o.cores]
    g1 = tn.autograd.grad(F, leaves, retain_graph=True, allow_unused=True)
    g2 = tn.autograd.grad(Fd, leaves, allow_unused=True)
    for k, (a, b) in enumerate(zip(g1, g2)):
        if (a is None) != (b is None):
            msgs.append('leaf %d: gradient %s for the TT expression, %s for the dense one' % (k, 'missing' if a is None else 'present', 'missing' if b is None else 'present'))
        elif a is not None and not relerr(a, b) < 1e-8:
            msgs.append('leaf %d: TT gradient differs from the dense gradient (rel.err %.2e) for op %s' % (k, relerr(a, b), op))
    return msgs[:3]


def drv_grad_api(doc, args, inst):
    import torchtt as tt
    case = args['case']
    x = tt.random([2, 3, 4], [1, 2, 2, 1], dtype=tn.float64)
    msgs = []
    if case in ('grad_indices', 'grad_indices_permuted', 'grad_all'):
        tt.grad.watch(x)
        v = (x * x).sum()
        idx = {'grad_indices': [0, 2], 'grad_indices_permuted': [2, 0], 'grad_all': None}[case]
        g = tt.grad.grad(v, x, idx)
        ref = [x.cores[k].grad for k in (idx if idx is not None else range(3))]
        if len(g) != len(ref) or any(a is None or a.shape != b.shape or not tn.equal(a, b) for a, b in zip(g, ref)):
            msgs.append('grad(val, x, %s) does not return the gradients of the requested cores in the requested order' % idx)
    elif case in ('grad_list_nested', 'grad_list_nested_rev'):
        y = tt.random([3, 2], [1, 2, 1], dtype=tn.float64)
        tt.grad.watch(x); tt.grad.watch(y)
        ts = [x, y] if case == 'grad_list_nested' else [y, x]
        g = tt.grad.grad_list(x.sum() + (y * y).sum(), ts, all_in_one=False)
        if [len(q) for q in g] != [len(t.cores) for t in ts]:
            msgs.append('grad_list(all_in_one=False) returns lists of lengths %s for tensors with %s cores' % ([len(q) for q in g], [len(t.cores) for t in ts]))
        elif any(a is None or a.shape != c.shape for q, t in zip(g, ts) for a, c in zip(q, t.cores)):
            msgs.append('grad_list(all_in_one=False): entries do not have the shapes of the cores')
    elif case in ('grad_of_constant', 'grad_list_of_constant'):
        tt.grad.watch(x)
        v0 = (x * 0).sum()
        try:
            g = tt.grad.grad(v0, x) if case == 'grad_of_constant' else tt.grad.grad_list(v0, [x])
        except Exception as e:
            return ['grad of (x*0).sum() raises %s: %s (the dense derivative is zero)' % (type(e).__name__, str(e)[:120])]
        if len(g) != 3 or any(a is None or a.shape != c.shape or float(a.abs().max()) != 0.0 for a, c in zip(g, x.cores)):
            msgs.append('grad of a value that does not depend on the cores is not a list of zero tensors with the shapes of the cores')
    elif case in ('grad_twice', 'grad_list_twice'):
        tt.grad.watch(x)
        call = (lambda v: tt.grad.grad(v, x)) if case == 'grad_twice' else (lambda v: tt.grad.grad_list(v, [x]))
        g1 = call(x.sum())
        g1_copy = [t.clone() for t in g1]
        g2 = call((x * x).sum())
        y = tt.TT([c.detach().clone().requires_grad_(True) for c in x.cores])
        ref2 = tn.autograd.grad((y * y).sum(), y.cores)
        if any(not tn.allclose(a, b) for a, b in zip(g2, ref2)):
            msgs.append('second %s call on the same watched tensor does not return the gradient of its value (max deviation %.3g: gradients of both calls are summed)' % (
                'grad' if case == 'grad_twice' else 'grad_list', max(float((a - b).abs().max()) for a, b in zip(g2, ref2))))
        if any(not tn.equal(a, b) for a, b in zip(g1, g1_copy)):
            msgs.append('the list returned by the first call changed its value during the second call')
    elif case in ('grad_partial_watch', 'grad_partial_watch_indices', 'grad_list_partial_watch'):
        tt.grad.watch(x, [1, 2])
        y = tt.random([3, 2], [1, 2, 1], dtype=tn.float64)
        if case == 'grad_partial_watch':
            v = (x * x).sum(); g = tt.grad.grad(v, x); want = [0, 1, 2]
        elif case == 'grad_partial_watch_indices':
            v = (x * x).sum(); g = tt.grad.grad(v, x, [0, 2]); want = [0, 2]
        else:
            tt.grad.watch(y)
            v = (x * x).sum() + y.sum(); g = tt.grad.grad_list(v, [x, y])[:3]; want = [0, 1, 2]
        x2 = tt.TT([c.detach().clone().requires_grad_(True) for c in x.cores])
        ref = tn.autograd.grad((x2 * x2).sum(), x2.cores)
        for j, kk in enumerate(want):
            a = g[j] if j < len(g) else None
            expect = tn.zeros_like(x.cores[0]) if kk == 0 else ref[kk]
            if a is None or not tn.is_tensor(a) or a.shape != expect.shape or not tn.allclose(a, expect):
                msgs.append('partially watched tensor (cores 1, 2): position %d of the result is not the derivative w.r.t. core %d (got %s)' % (
                    j, kk, None if a is None else list(a.shape)))
    elif case in ('grad_of_clone', 'grad_list_of_clone'):
        tt.grad.watch(x)
        z = x.clone()
        v = (z * z).sum()
        ref = tn.autograd.grad(v, z.cores, retain_graph=True)
        g = tt.grad.grad(v, z) if case == 'grad_of_clone' else tt.grad.grad_list(v, [z])
        if len(g) != 3 or any(a is None or not tn.allclose(a, b) for a, b in zip(g, ref)):
            msgs.append('gradient w.r.t. the (non-leaf) cores of x.clone(): got %s, torch.autograd.grad gives tensors of norm %s' % (
                [None if a is None else float(a.abs().max()) for a in g], [float(b.abs().max()) for b in ref]))
    elif case == 'grad_then_indices':
        tt.grad.watch(x)
        g1 = tt.grad.grad(x.sum(), x)
        g1_copy = [t.clone() for t in g1]
        g2 = tt.grad.grad((x * x).sum(), x, [0])
        y = tt.TT([c.detach().clone().requires_grad_(True) for c in x.cores])
        ref2 = tn.autograd.grad((y * y).sum(), y.cores)
        if len(g2) != 1 or not tn.allclose(g2[0], ref2[0]):
            msgs.append('grad(val2, x, [0]) after grad(val1, x) does not return the gradient of val2 w.r.t. core 0')
        bad = [j for j, (a, b) in enumerate(zip(g1, g1_copy)) if not tn.equal(a, b)]
        if bad:
            msgs.append('entries %s of the list returned by grad(val1, x) changed their value during grad(val2, x, [0])' % bad)
    elif case in ('grad_independent', 'grad_indices_independent', 'grad_list_independent', 'grad_list_nested_independent'):
        y = tt.random([3, 2], [1, 2, 1], dtype=tn.float64)
        tt.grad.watch(x); tt.grad.watch(y)
        v = y.sum()
        if case == 'grad_independent':
            g, want = tt.grad.grad(v, x), list(x.cores)
        elif case == 'grad_indices_independent':
            g, want = tt.grad.grad(v, x, [2, 0]), [x.cores[2], x.cores[0]]
        elif case == 'grad_list_independent':
            g, want = tt.grad.grad_list(v, [x, y])[:3], list(x.cores)
        else:
            g, want = tt.grad.grad_list(v, [y, x], all_in_one=False)[1], list(x.cores)
        if len(g) != len(want) or any(a is None or not tn.is_tensor(a) or a.shape != c.shape or float(a.abs().max()) != 0.0 for a, c in zip(g, want)):
            msgs.append('gradient w.r.t. watched cores the value does not depend on: got %s, the dense derivative is a zero array of the shape of each core' % [None if a is None else list(a.shape) for a in g])
    elif case == 'watch_some':
        tt.grad.watch(x, [2, 0])
        if [c.requires_grad for c in x.cores] != [True, False, True]:
            msgs.append('watch(x,[2,0]) flags %s' % [c.requires_grad for c in x.cores])
    return msgs


DRIVERS.update({'grad_op': drv_grad_op, 'grad_api': drv_grad_api})


def _numlist(v, lo=1, hi=6):
    return [clampi(s, lo, hi) for s in v]


def drv_reshape(doc, args, inst):
    msgs = []
    for seed in range(2):
        x = build(inst, args['x'], 10 + seed)
        sx = snapshot(x)
        tgt = inst['target']
        if x.is_ttm:
            # make the target consistent with the (clamped) source sizes: recompute from the run structure when available
            tgt = [(clampi(a), clampi(b)) for a, b in tgt]
            if int(np.prod([a for a, b in tgt])) != int(np.prod(x.M)) or int(np.prod([b for a, b in tgt])) != int(np.prod(x.N)):
                return []
        else:
            tgt = _numlist(tgt, 1, 64)
            if int(np.prod(tgt)) != int(np.prod(x.N)):
                return []
        try:
            r = torchtt.reshape(x, tgt)
        except Exception as e:
            return ['reshape(%s, %s) raises %s: %s' % (descr(x), tgt, type(e).__name__, str(e)[:120])]
        we = wf_errors(r)
        if we:
            msgs.append('result not well formed: %s' % we)
        f = sx['full']
        if x.is_ttm:
            want = [a for a, b in tgt] + [b for a, b in tgt]
            if list(r.M) != [a for a, b in tgt] or list(r.N) != [b for a, b in tgt]:
                msgs.append('requested %s, got M=%s N=%s' % (tgt, r.M, r.N))
            else:
                # dense reshape of an operator: row modes and column modes are reshaped separately
                ref = f.reshape(want)
                if not relerr(r.full(), ref) < 1e-9:
                    msgs.append('operator reshape %s -> %s differs from dense (rel.err %.2e)' % (descr(x), tgt, relerr(r.full(), ref)))
        else:
            if list(r.N) != list(tgt):
                msgs.append('requested %s, got %s' % (tgt, r.N))
            elif not relerr(r.full(), f.reshape(tgt)) < 1e-9:
                msgs.append('reshape %s -> %s differs from the dense reshape (rel.err %.2e)' % (descr(x), tgt, relerr(r.full(), f.reshape(tgt))))
        if not unchanged(x, sx):
            msgs.append('operand modified by reshape')
        if msgs:
            break
    return msgs


def drv_permute(doc, args, inst):
    msgs = []
    x = build(inst, args['x'], 10)
    sx = snapshot(x)
    dims = [int(v) for v in inst['dims']]
    try:
        r = torchtt.permute(x, dims)
    except Exception as e:
        return ['permute(%s, %s) raises %s: %s' % (descr(x), dims, type(e).__name__, str(e)[:120])]
    d = len(dims)
    ref = sx['full'].permute(dims + [k + d for k in dims]) if x.is_ttm else sx['full'].permute(dims)
    we = wf_errors(r)
    if we:
        msgs.append('not well formed: %s' % we)
    if list(r.full().shape) != list(ref.shape):
        msgs.append('shape %s vs %s' % (list(r.full().shape), list(ref.shape)))
    elif not relerr(r.full(), ref) < 1e-8:
        msgs.append('permute(%s, %s) differs from dense (rel.err %.2e)' % (descr(x), dims, relerr(r.full(), ref)))
    if not unchanged(x, sx):
        msgs.append('operand modified by permute')
    return msgs


def drv_qtt(doc, args, inst):
    msgs = []
    spec = dict(inst[args['x']])
    spec['N'] = [int(n) for n in spec['N']]
    g = tn.Generator().manual_seed(1)
    N = spec['N']
    R = [1] + [min(3, clampi(r)) for r in spec['R'][1:-1]] + [1]
    x = TT([tn.randn([R[k], N[k], R[k + 1]], dtype=tn.float64, generator=g) for k in range(len(N))])
    try:
        q = x.to_qtt()
        b = q.qtt_to_tens(list(N))
    except Exception as e:
        return ['to_qtt / qtt_to_tens raises %s: %s for N=%s' % (type(e).__name__, str(e)[:120], N)]
    if any(n != 2 for n in q.N):
        msgs.append('to_qtt modes %s' % q.N)
    if list(b.N) != list(N):
        msgs.append('round trip shape %s vs %s' % (b.N, N))
    elif not relerr(b.full(), x.full()) < 1e-9:
        msgs.append('QTT round trip differs (rel.err %.2e)' % relerr(b.full(), x.full()))
    return msgs


def drv_bounded(doc, args, inst):
    """re-run a single case of the bounded run-time harness"""
    import subprocess, os
    a = doc.get('args') or {}
    here = os.path.dirname(os.path.abspath(__file__))
    p = subprocess.run([os.path.join(here, '.venv312', 'bin', 'python'), os.path.join(here, 'runtime', 'rmode.py'), a.get('prop', doc.get('property', '')),
                        '--case', json.dumps(a)], capture_output=True, text=True, env=dict(os.environ))
    lines = [l for l in p.stdout.splitlines() if l.startswith('RMODE-RESULT ')]
    if not lines:
        return ['bounded case could not be re-run: %s' % (p.stdout + p.stderr)[-300:]]
    d = json.loads(lines[-1][len('RMODE-RESULT '):])
    return [f.get('message', '') for f in d.get('failures', [])][:3]


import json  # noqa: E402
DRIVERS.update({'reshape': drv_reshape, 'permute': drv_permute, 'qtt': drv_qtt, 'rmode': drv_bounded, 'bounded': drv_bounded})


# ------------------------------------------------------------------------------------------------
# C14: index contracts of the cross approximation
# ------------------------------------------------------------------------------------------------
def _sizes(v, lo=1, hi=7):
    return [clampi(x, lo, hi) for x in v]


def _size_family(N):
    """the model's sizes first, then a few neighbours (reversed, one size bumped)"""
    fam = [list(N), list(reversed(N))]
    for k in range(len(N)):
        fam.append([n + (2 if j == k else 0) for j, n in enumerate(N)])
    out = []
    for f in fam:
        if f not in out:
            out.append(f)
    return out


def drv_maxvol(doc, args, inst):
    from torchtt.interpolate import _maxvol
    m, n = clampi(inst.get('m', 3), 1, 9), clampi(inst.get('n', 2), 1, 9)
    msgs = []
    for seed in range(12):
        g = tn.Generator().manual_seed(seed)
        M = tn.randn((m, n), dtype=tn.float64, generator=g)
        if seed % 3 == 1 and m > n:
            M[:n, :] *= 1e-3          # bad initial pivots: the improvement loop has to swap rows
        if seed % 3 == 2 and m > n:
            M[n:, :] *= 1e3
        M0 = M.clone()
        try:
            idx = _maxvol(M)
        except Exception as e:
            return ['_maxvol raises %s: %s for a %dx%d matrix (seed %d)' % (type(e).__name__, str(e)[:120], m, n, seed)]
        if not (tn.is_tensor(idx) and idx.dtype == tn.int64 and idx.ndim == 1 and idx.shape[0] == min(m, n)):
            msgs.append('_maxvol(%dx%d) returns %s' % (m, n, (getattr(idx, 'dtype', None), tuple(getattr(idx, 'shape', ())))))
        elif idx.numel() and (int(idx.min()) < 0 or int(idx.max()) >= m):
            msgs.append('_maxvol(%dx%d) returns row numbers %s outside [0,%d)' % (m, n, idx.tolist(), m))
        if not tn.equal(M, M0):
            msgs.append('_maxvol modified its argument')
        if msgs:
            return msgs
    return msgs


def _checking_index_function(N, log):
    d = len(N)

    def f(I):
        ok = tn.is_tensor(I) and I.dtype == tn.int64 and I.ndim == 2 and I.shape[1] == d
        if not ok:
            log.append('user function called with %s (expected an int64 matrix with %d columns)' % ((getattr(I, 'dtype', None), tuple(getattr(I, 'shape', ()))), d))
            return tn.zeros(I.shape[0], dtype=tn.float64)
        for k in range(d):
            if I.shape[0] and (int(I[:, k].min()) < 0 or int(I[:, k].max()) >= N[k]):
                log.append('column %d of the index matrix has values in [%d,%d], outside [0,%d) (N=%s)' % (k, int(I[:, k].min()), int(I[:, k].max()), N[k], N))
        J = tn.stack([tn.clamp(I[:, k], 0, N[k] - 1) for k in range(d)], 1)
        return 1.0 / (2.0 + tn.sum(J, 1).to(tn.float64))
    return f


def drv_cross_index(doc, args, inst):
    import torchtt.interpolate as ti
    N0 = _sizes(inst.get('N', [3, 4]))
    nswp = int(args.get('nswp', inst.get('nswp', 2)) or 2)
    kick = clampi(inst.get('kick', 2), 1, 3)
    for N in _size_family(N0):
        for seed in range(3):
            tn.manual_seed(seed)
            log = []
            x0 = None
            if isinstance(inst.get('x0'), dict):
                spec = dict(inst['x0']); spec['N'] = N
                x0 = mk_tt(spec, seed)
                s0 = snapshot(x0)
            try:
                r = ti.dmrg_cross(_checking_index_function(N, log), N, eps=1e-6, nswp=max(nswp, 2), x_start=x0, kick=kick)
            except Exception as e:
                return ['dmrg_cross raises %s: %s for N=%s kick=%d seed=%d' % (type(e).__name__, str(e)[:120], N, kick, seed)]
            if log:
                return ['dmrg_cross(N=%s, kick=%d, seed=%d): %s' % (N, kick, seed, log[0])]
            we = wf_errors(r)
            if we or list(r.N) != list(N):
                return ['dmrg_cross(N=%s): result not a well formed TT of shape N: %s %s' % (N, we, list(r.N))]
            if x0 is not None and not unchanged(x0, s0):
                return ['dmrg_cross modified the starting tensor']
    return []


def drv_fi_values(doc, args, inst):
    import torchtt.interpolate as ti
    names = sorted(k for k in inst if k.startswith('x') and k[1:].isdigit())
    if not names:
        return []
    N0 = _sizes(inst[names[0]]['N'])
    multi = len(names) > 1 or bool(args.get('multi'))
    nswp = int(inst.get('nswp', 2) or 2)
    kick = clampi(inst.get('kick', 2), 1, 3)
    for N in _size_family(N0):
        for seed in range(3):
            tn.manual_seed(seed)
            xs = []
            for j, nm in enumerate(names):
                spec = dict(inst[nm]); spec['N'] = N
                xs.append(mk_tt(spec, seed + 10 * j))
            fulls = [tn.sort(x.full().flatten())[0] for x in xs]
            snaps = [snapshot(x) for x in xs]
            log = []

            def member(vals, j):
                ref = fulls[j]
                pos = tn.clamp(tn.searchsorted(ref, vals.contiguous()), 0, ref.numel() - 1)
                near = tn.minimum(tn.abs(ref[pos] - vals), tn.abs(ref[tn.clamp(pos - 1, 0, ref.numel() - 1)] - vals))
                scale = float(tn.abs(ref).max()) + 1e-300
                bad = near > 1e-9 * scale
                if bool(bad.any()):
                    log.append('%d of %d values handed to the user function are not entries of argument tensor %d (e.g. %r)' % (int(bad.sum()), vals.numel(), j, float(vals[bad][0])))

            def f(v):
                if multi:
                    if not (tn.is_tensor(v) and v.ndim == 2 and v.shape[1] == len(xs)):
                        log.append('user function called with shape %s (expected M x %d)' % (tuple(getattr(v, 'shape', ())), len(xs)))
                        return tn.zeros(v.shape[0], dtype=tn.float64)
                    for j in range(len(xs)):
                        member(v[:, j].to(tn.float64), j)
                    return 1.0 / (2.0 + tn.sum(v, 1) ** 2)
                if not (tn.is_tensor(v) and v.ndim == 1):
                    log.append('user function called with shape %s (expected a vector)' % (tuple(getattr(v, 'shape', ())),))
                    return tn.zeros(v.numel(), dtype=tn.float64)
                member(v.to(tn.float64), 0)
                return 1.0 / (2.0 + v ** 2)
            st = None
            if isinstance(inst.get('x_start'), dict):
                spec = dict(inst['x_start']); spec['N'] = N
                st = mk_tt(spec, seed + 77)
            try:
                r = ti.function_interpolate(f, xs if multi else xs[0], eps=1e-6, start_tens=st, nswp=max(nswp, 2), kick=kick)
            except Exception as e:
                return ['function_interpolate raises %s: %s for N=%s ranks=%s seed=%d' % (type(e).__name__, str(e)[:120], N, [list(x.R) for x in xs], seed)]
            if log:
                return ['function_interpolate(N=%s, ranks=%s, seed=%d): %s' % (N, [list(x.R) for x in xs], seed, log[0])]
            we = wf_errors(r)
            if we or list(r.N) != list(N):
                return ['function_interpolate(N=%s): result not a well formed TT of shape N: %s %s' % (N, we, list(r.N))]
            for x, s in zip(xs, snaps):
                if not unchanged(x, s):
                    return ['function_interpolate modified an argument tensor']
    return []


DRIVERS.update({'maxvol': drv_maxvol, 'cross_index': drv_cross_index, 'fi_values': drv_fi_values})


def drv_local_op(doc, args, inst):
    """the local operator of amen_solve against its spec: matvec(x) == vec(B(P(x)))"""
    from torchtt.solvers import _LinearOp
    sz = inst.get('sizes', {})
    r, n, R, s, S = [clampi(sz.get(k, 2), 1, 4) for k in ('r', 'n', 'R', 's', 'S')]
    if max(r, n, R) == 1:
        n = 3
    prec, apply = args.get('prec'), args.get('apply', True)
    for seed in range(3):
        g = tn.Generator().manual_seed(seed)
        Pl = tn.randn([r, s, r], dtype=tn.float64, generator=g) + (2.0 * tn.eye(r, dtype=tn.float64))[:, None, :]
        Pr = tn.randn([R, S, R], dtype=tn.float64, generator=g) + (2.0 * tn.eye(R, dtype=tn.float64))[:, None, :]
        Ak = tn.randn([s, n, n, S], dtype=tn.float64, generator=g) + (3.0 * tn.eye(n, dtype=tn.float64))[None, :, :, None]
        x = tn.randn([r * n * R, 1], dtype=tn.float64, generator=g)
        snap = [t.clone() for t in (Pl, Pr, Ak, x)]
        try:
            op = _LinearOp(Pl, Pr, Ak, [r, n, R], prec)
            w = op.matvec(x) if apply else op.matvec(x, False)
        except Exception as e:
            return ['_LinearOp(prec=%r).matvec raises %s: %s (r=%d n=%d R=%d s=%d S=%d)' % (prec, type(e).__name__, str(e)[:120], r, n, R, s, S)]
        xs = x.reshape(r, n, R)
        if prec is not None and apply:
            xs = tn.einsum('rnR,rRmn->rmR', xs, op.J) if prec == 'c' else tn.einsum('rnR,rmLnR->rmL', xs, op.J)
        ref = tn.einsum('lsr,smnS,LSR,rnR->lmL', Pl, Ak, Pr, xs).reshape(-1, 1)
        if list(w.shape) != list(ref.shape):
            return ['matvec result has shape %s, expected %s' % (list(w.shape), list(ref.shape))]
        e = relerr(w, ref)
        if not e < 1e-10:
            return ['_LinearOp(prec=%r).matvec(x%s) differs from B(P(x)) (rel.err %.3g) for r=%d n=%d R=%d s=%d S=%d' % (prec, '' if apply else ', False', e, r, n, R, s, S)]
        if any(not tn.equal(a, b) for a, b in zip(snap, (Pl, Pr, Ak, x))):
            return ['matvec modified one of its operands']
    return []


DRIVERS.update({'local_op': drv_local_op})
